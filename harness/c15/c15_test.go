package c15

import (
	"encoding/json"
	"fmt"
	"runtime"
	"strings"
	"sync"
	"sync/atomic"
	"testing"
	"time"

	fpgo "github.com/TeaEntityLab/fpGo/v2"
	"github.com/TeaEntityLab/fpGo/v2/worker"
	"pgregory.net/rapid"

	"verifharness/vlib"
)

func TestMain(m *testing.M) { vlib.Main(m) }

var schedMu sync.Mutex

// lateRan counts user callbacks that ran although their work was submitted after the
// close had returned (checked again at process end).
var lateRan int64

const (
	kHandler = iota
	kActor
	kQueue
	kPool
	kCor
	numKinds
)

var kindNames = []string{"Handler", "Actor", "BufferedChannelQueue", "WorkerPool", "Cor"}

// user operations (per kind)
const (
	opPost = iota // Handler.Post / Actor.Send / pool Schedule / cor YieldFrom / queue Offer
	opPut
	opTake
	opTakeT
	opPoll
	opChanRecv
	opCount
	opScheduleT
	opChanPeek // GetChannel() without receiving (what every select loop does on each iteration)
	numOps
)

var opNames = []string{"Post/Send/Offer/Schedule/YieldFrom", "Put", "Take", "TakeWithTimeout", "Poll", "GetChannel+recv", "Count", "ScheduleWithTimeout", "GetChannel(peek)"}

func opsOf(kind int) []int {
	switch kind {
	case kQueue:
		return []int{opPost, opPut, opTake, opTakeT, opPoll, opChanRecv, opCount, opChanPeek}
	case kPool:
		return []int{opPost, opScheduleT}
	}
	return []int{opPost}
}

// the hook point right after the closed/done check of (kind, op), "" if none
func windowPoint(kind, op int) string {
	switch kind {
	case kHandler:
		return "handler.post.afterClosedCheck"
	case kActor:
		return "actor.send.afterClosedCheck"
	case kQueue:
		switch op {
		case opPost, opPut:
			return "bcq.offer.entry"
		case opTake:
			return "bcq.take.afterClosedCheck"
		case opTakeT:
			return "bcq.takeWithTimeout.afterClosedCheck"
		case opPoll:
			return "bcq.poll.afterClosedCheck"
		case opChanRecv, opChanPeek:
			return "bcq.getChannel.entry"
		case opCount:
			return "bcq.count.afterClosedCheck"
		}
	case kPool:
		return "pool.schedule.afterClosedCheck"
	case kCor:
		return "cor.doCloseSafe.afterDoneCheck"
	}
	return ""
}

func closedPoint(kind int) string {
	switch kind {
	case kHandler:
		return "handler.close.closed"
	case kActor:
		return "actor.close.closed"
	case kQueue:
		return "bcq.close.closed"
	case kPool:
		return "bcq.close.closed" // the pool closes its job queue last
	case kCor:
		return "cor.close.closed"
	}
	return ""
}

var allPoints = [][]string{
	kHandler: {"handler.post.afterClosedCheck", "handler.close.flagSet", "handler.close.closed"},
	kActor:   {"actor.send.afterClosedCheck", "actor.close.flagSet", "actor.close.closed"},
	kQueue: {"bcq.offer.entry", "bcq.offer.locked", "bcq.take.afterClosedCheck", "bcq.takeWithTimeout.afterClosedCheck", "bcq.poll.afterClosedCheck",
		"bcq.getChannel.entry", "bcq.count.afterClosedCheck", "bcq.close.entry", "bcq.close.flagSet", "bcq.close.closed", "bcq.load.wake", "bcq.load.beforeSleep", "bcq.load.betweenPollOffer"},
	kPool: {"pool.schedule.afterClosedCheck", "pool.worker.afterClosedCheck", "pool.worker.gotJob", "pool.close.flagSet", "pool.spawnLoop.wake", "pool.trySpawn.entry",
		"bcq.getChannel.entry", "bcq.offer.entry", "bcq.close.flagSet", "bcq.close.closed", "bcq.load.wake"},
	kCor: {"cor.doCloseSafe.afterDoneCheck", "cor.doCloseSafe.locked", "cor.close.entry", "cor.close.flagSet", "cor.close.closed", "cor.yieldRef.gotOp"},
}

type scenario struct {
	Kind       int     `json:"kind"`
	Users      [][]int `json:"users"`      // per user: cyclic op list
	Iters      int     `json:"iters"`      // operations per user before the close...
	After      int     `json:"after"`      // ...and operations per user that begin after the close returned
	CloseAfter int     `json:"closeAfter"` // close once that many user operations have started (undirected)
	Directed   int     `json:"directed"`   // op whose window is entered on purpose (-1 = none); -2 = worker/loader window
	Cap        int     `json:"cap"`        // mailbox / channel capacity
	// Stress: no hook is installed (the instrumentation itself slows Close down and hides narrow
	// un-instrumented windows) and users run their operations in tight batches
	Stress bool `json:"stress"`
	// KeepQueueOpen (pool): SetIsJobQueueClosedWhenClose(false) — Close() closes only the pool
	KeepQueueOpen bool `json:"keepQueueOpen"`
	// QueueFirst (pool): the owner closes the job queue itself while the pool is still live, a moment later
	// the pool; idle workers meet a closed queue: no job exists, so nothing may reach the panic handler
	QueueFirst bool `json:"queueFirst"`
	// Batch (pool): SetWorkerBatchSize (0 = 1): with larger batches fewer workers are spawned per queued job
	// and a worker may serve several jobs in a row around the close
	Batch int       `json:"batch,omitempty"`
	Plan  vlib.Plan `json:"plan"`
}

func (s scenario) String() string {
	var sb strings.Builder
	fmt.Fprintf(&sb, "%s cap=%d iters=%d after=%d closeAfter=%d stress=%v keepQueueOpen=%v queueFirst=%v batch=%d", kindNames[s.Kind], s.Cap, s.Iters, s.After, s.CloseAfter, s.Stress, s.KeepQueueOpen, s.QueueFirst, s.Batch)
	if s.Directed >= 0 {
		fmt.Fprintf(&sb, " directed=%s@%s", opNames[s.Directed], windowPoint(s.Kind, s.Directed))
	} else if s.Directed == -2 {
		sb.WriteString(" directed=internal-goroutine-window")
	}
	sb.WriteString(" users=")
	for _, u := range s.Users {
		sb.WriteString("[")
		for i, o := range u {
			if i > 0 {
				sb.WriteString(",")
			}
			sb.WriteString(opNames[o])
		}
		sb.WriteString("]")
	}
	fmt.Fprintf(&sb, " plan=%v", s.Plan)
	return sb.String()
}

type result struct {
	failKey, failMsg string
	windowEntered    bool
	inconclusive     string
}

func panicSite(stack string) string {
	for _, l := range strings.Split(stack, "\n") {
		l = strings.TrimSpace(l)
		if strings.HasPrefix(l, "github.com/TeaEntityLab/fpGo/v2") && !strings.Contains(l, "verifPoint") {
			l = strings.TrimPrefix(l, "github.com/TeaEntityLab/fpGo/v2")
			if i := strings.Index(l, "("); i > 0 && strings.HasSuffix(l, ")") {
				if j := strings.LastIndex(l, "("); j > 0 {
					l = l[:j]
				}
			}
			return strings.Trim(l, "./")
		}
	}
	return "?"
}

func runScenario(s scenario) result {
	var res result
	schedMu.Lock()
	defer schedMu.Unlock()
	var failMu sync.Mutex
	fail := func(k, f string, a ...any) {
		failMu.Lock()
		if res.failKey == "" {
			res.failKey, res.failMsg = k, fmt.Sprintf(f, a...)
		}
		failMu.Unlock()
	}
	plan := vlib.Plan{}
	for k, v := range s.Plan {
		plan[k] = v
	}
	win := ""
	if s.Directed >= 0 {
		win = windowPoint(s.Kind, s.Directed)
		plan[win] = append([]vlib.Action{{Kind: vlib.ActPark, Event: "hit:" + closedPoint(s.Kind), D: 20 * time.Millisecond}}, plan[win]...)
	} else if s.Directed == -2 {
		switch s.Kind {
		case kQueue:
			win = "bcq.load.wake"
		case kPool:
			win = "pool.worker.afterClosedCheck"
		}
		if win != "" {
			plan[win] = append([]vlib.Action{{Kind: vlib.ActPass}, {Kind: vlib.ActPark, Event: "hit:" + closedPoint(s.Kind), D: 20 * time.Millisecond}}, plan[win]...)
		}
	}
	sched := vlib.NewSched(plan)
	if !s.Stress {
		fpgo.SetVerifHook(sched.Hook)
		worker.SetVerifHook(sched.Hook)
		defer fpgo.SetVerifHook(nil)
		defer worker.SetVerifHook(nil)
	}
	defer sched.Disable()

	var closeReturned int32
	var opsStarted int64
	var handlerPanics int64
	var handlerPanicMsg atomic.Value
	var lateWork int64 // callbacks of work submitted after close returned that ran
	// ---- build the object
	var doOp func(user, op int, late bool) // performs one user operation (panics propagate to the caller's Try)
	var closeIt func()
	var isClosed func() bool
	var corTargetDone chan struct{}
	mkWork := func(late bool) func() {
		return func() {
			if late {
				atomic.AddInt64(&lateWork, 1)
				atomic.AddInt64(&lateRan, 1)
			}
		}
	}
	switch s.Kind {
	case kHandler:
		h := fpgo.Handler.NewByCh(make(chan func(), s.Cap))
		sched.Track(h)
		doOp = func(_ int, _ int, late bool) { h.Post(mkWork(late)) }
		closeIt = h.Close
	case kActor:
		a := fpgo.ActorNewByOptionsGenerics(func(_ *fpgo.ActorDef[func()], f func()) { f() }, make(chan func(), s.Cap), map[string]interface{}{})
		sched.Track(a)
		doOp = func(_ int, _ int, late bool) { a.Send(mkWork(late)) }
		closeIt = a.Close
		isClosed = a.IsClosed
	case kQueue:
		q := fpgo.NewBufferedChannelQueue[int](maxInt(s.Cap, 1), 3, 100).SetLoadFromPoolDuration(20 * time.Microsecond).SetFreeNodeHookPoolIntervalDuration(time.Millisecond)
		sched.Track(q)
		doOp = func(user, op int, late bool) {
			var err error
			switch op {
			case opPost:
				err = q.Offer(user)
				if late && err != fpgo.ErrQueueIsClosed {
					fail("C15/queue.Offer-after-close", "Offer beginning after Close() returned got %v, want ErrQueueIsClosed", err)
				}
			case opPut:
				err = q.Put(user)
				if late && err != fpgo.ErrQueueIsClosed {
					fail("C15/queue.Put-after-close", "Put beginning after Close() returned got %v, want ErrQueueIsClosed", err)
				}
			case opTake:
				_, err = q.Take()
				if late && err != fpgo.ErrQueueIsClosed {
					fail("C15/queue.Take-after-close", "Take beginning after Close() returned got %v, want ErrQueueIsClosed", err)
				}
			case opTakeT:
				_, err = q.TakeWithTimeout(100 * time.Microsecond)
				if late && err != fpgo.ErrQueueIsClosed {
					fail("C15/queue.TakeWithTimeout-after-close", "TakeWithTimeout beginning after Close() returned got %v, want ErrQueueIsClosed", err)
				}
			case opPoll:
				_, err = q.Poll()
				if late && err != fpgo.ErrQueueIsClosed {
					fail("C15/queue.Poll-after-close", "Poll beginning after Close() returned got %v, want ErrQueueIsClosed", err)
				}
			case opChanRecv:
				select {
				case <-q.GetChannel():
				case <-time.After(100 * time.Microsecond):
				}
			case opChanPeek:
				_ = len(q.GetChannel())
			case opCount:
				if n := q.Count(); late && n != 0 {
					fail("C15/queue.Count-after-close", "Count() after Close() returned is %d", n)
				}
			}
		}
		closeIt = q.Close
		isClosed = q.IsClosed
	case kPool:
		q := fpgo.NewBufferedChannelQueue[func()](maxInt(s.Cap, 1), 5, 100).SetLoadFromPoolDuration(20 * time.Microsecond).SetFreeNodeHookPoolIntervalDuration(time.Millisecond)
		p := worker.NewDefaultWorkerPool(q, nil)
		sched.Track(q)
		sched.Track(p)
		if s.QueueFirst {
			// the owner closes the queue itself (once): the pool must not close it again
			p.SetIsJobQueueClosedWhenClose(false)
		} else if s.KeepQueueOpen {
			p.SetIsJobQueueClosedWhenClose(false)
			defer q.Close()
		}
		p.SetWorkerSizeMaximum(3).SetWorkerSizeStandBy(2).SetWorkerBatchSize(maxInt(s.Batch, 1)).
			SetSpawnWorkerDuration(50 * time.Microsecond).SetWorkerExpiryDuration(time.Millisecond).
			SetScheduleRetryInterval(30 * time.Microsecond).
			SetPanicHandler(func(v interface{}) {
				atomic.AddInt64(&handlerPanics, 1)
				buf := make([]byte, 2048)
				handlerPanicMsg.Store(fmt.Sprintf("%v\n%s", v, buf[:runtime.Stack(buf, false)]))
			})
		doOp = func(_ int, op int, late bool) {
			var err error
			if op == opScheduleT {
				err = p.ScheduleWithTimeout(mkWork(late), 100*time.Microsecond)
			} else {
				err = p.Schedule(mkWork(late))
			}
			if late && err != worker.ErrWorkerPoolIsClosed {
				fail("C15/pool.Schedule-after-close", "%s beginning after Close() returned got %v, want ErrWorkerPoolIsClosed", opNames[op], err)
			}
		}
		closeIt = p.Close
		if s.QueueFirst {
			closeIt = func() {
				q.Close()
				time.Sleep(300 * time.Microsecond)
				p.Close()
			}
		}
		isClosed = p.IsClosed
	case kCor:
		// the "close" is the completion of the target coroutine after CloseAfter served requests
		corTargetDone = make(chan struct{})
		var target *fpgo.CorDef[int]
		served := s.CloseAfter
		target = fpgo.CorNewGenerics[int](func() {
			defer close(corTargetDone)
			for i := 0; i < served; i++ {
				target.YieldRef(i)
			}
		})
		sched.Track(target)
		callers := make([]*fpgo.CorDef[int], len(s.Users))
		doOp = func(user, _ int, late bool) {
			// each user goroutine is its own caller coroutine's effect; YieldFrom needs the caller object
			callers[user].YieldFrom(target, user)
			if late && !target.IsDone() {
				fail("C15/cor.IsDone", "IsDone() is false after the effect returned and close finished")
			}
		}
		for i := range callers {
			callers[i] = fpgo.CorNewGenerics[int](func() {})
			// mark as started without running an effect goroutine: the user goroutine plays the effect
		}
		closeIt = func() { target.Start(); <-corTargetDone }
		isClosed = target.IsDone
	}

	// ---- users
	var wg sync.WaitGroup
	start := make(chan struct{})
	for u := range s.Users {
		wg.Add(1)
		go userLoop(&wg, u, s, start, &closeReturned, &opsStarted, doOp, fail)
	}
	closerDone := make(chan struct{})
	go func() {
		defer close(closerDone)
		<-start
		if win != "" {
			sched.Wait("hit:"+win, 20*time.Millisecond)
		} else {
			vlib.WaitUntil(50*time.Millisecond, func() bool { return atomic.LoadInt64(&opsStarted) >= int64(s.CloseAfter) })
		}
		if p, st := vlib.Try(closeIt); p != nil {
			fail("C15/close-panic:"+kindNames[s.Kind], "Close panicked: %v\n%s", p, st)
		}
		// the close "has returned" for a coroutine once close() finished closing its channels
		if s.Kind == kCor {
			if s.Stress {
				vlib.WaitUntil(50*time.Millisecond, func() bool { return isClosed() })
				time.Sleep(100 * time.Microsecond)
			} else {
				sched.Wait("hit:cor.close.closed", 50*time.Millisecond)
				time.Sleep(20 * time.Microsecond)
			}
		}
		atomic.StoreInt32(&closeReturned, 1)
	}()
	close(start)
	done := make(chan struct{})
	go func() { wg.Wait(); <-closerDone; close(done) }()
	budget := vlib.StallBudget()
	select {
	case <-done:
	case <-time.After(budget):
		sched.Disable()
		select {
		case <-done:
		case <-time.After(budget):
			verdict, dump := vlib.ClassifyStall([]string{"c15.userLoop"})
			if verdict == "blocked" || verdict == "none" {
				key := "C15/deadlock:" + kindNames[s.Kind]
				site := "?"
				for _, cand := range []string{"YieldFrom", "Post", "Send", "Offer", "Take", "Poll", "Schedule", "Count", "Close"} {
					if strings.Contains(dump, ")."+cand+"(") {
						site = cand
						break
					}
				}
				fail(key+"."+site, "goroutines blocked for ever after the close:\n%s", dump)
			} else {
				res.inconclusive = "slow: " + verdict
			}
			return res
		}
	}
	if s.Kind == kPool || s.Kind == kHandler || s.Kind == kActor {
		time.Sleep(300 * time.Microsecond) // let accepted work drain
	}
	if atomic.LoadInt64(&handlerPanics) > 0 {
		msg, _ := handlerPanicMsg.Load().(string)
		fail("C15/pool-panic-handler", "the pool's panic handler was invoked although no job panics: %s", msg)
	}
	if atomic.LoadInt64(&lateWork) > 0 {
		fail("C15/ran-after-close:"+kindNames[s.Kind], "%d callbacks ran for work submitted after the close had returned", lateWork)
	}
	if isClosed != nil && !isClosed() {
		fail("C15/isclosed:"+kindNames[s.Kind], "IsClosed/IsDone is false after the close returned")
	}
	res.windowEntered = win != "" && sched.Hits(win) > 0 && sched.Fired("hit:"+closedPoint(s.Kind))
	if win == "" {
		// undirected: did any user operation overlap the close? (ops were running when it began)
		res.windowEntered = atomic.LoadInt64(&opsStarted) > int64(s.CloseAfter)
	}
	return res
}

func maxInt(a, b int) int {
	if a > b {
		return a
	}
	return b
}

func userLoop(wg *sync.WaitGroup, u int, s scenario, start chan struct{}, closeReturned *int32, opsStarted *int64,
	doOp func(user, op int, late bool), fail func(k, f string, a ...any)) {
	defer wg.Done()
	<-start
	ops := s.Users[u]
	afterDone := 0
	for i := 0; ; i++ {
		late := atomic.LoadInt32(closeReturned) == 1
		if late {
			if afterDone >= s.After {
				return
			}
			afterDone++
		} else if i >= s.Iters+2000 {
			// the close is late (undirected trigger not reached): stop producing
			if !vlib.WaitUntil(vlib.StallBudget(), func() bool { return atomic.LoadInt32(closeReturned) == 1 }) {
				return
			}
			continue
		}
		op := ops[i%len(ops)]
		atomic.AddInt64(opsStarted, 1)
		batch := 1
		if s.Stress && !late {
			batch = 25
		}
		if p, st := vlib.Try(func() {
			for b := 0; b < batch; b++ {
				doOp(u, op, late)
			}
		}); p != nil {
			site := panicSite(st)
			fail("C15/panic:"+site, "%s user %d: %s panicked: %v\n%s", kindNames[s.Kind], u, opNames[op], p, st)
			return
		}
		if i%4 == 3 {
			runtime.Gosched()
		}
	}
}

func genScenario(t *rapid.T, directedOnly bool) scenario {
	var s scenario
	s.Kind = rapid.IntRange(0, numKinds-1).Draw(t, "kind")
	ops := opsOf(s.Kind)
	nu := rapid.IntRange(1, 8).Draw(t, "users")
	for u := 0; u < nu; u++ {
		n := rapid.IntRange(1, 3).Draw(t, "nops")
		var l []int
		for i := 0; i < n; i++ {
			l = append(l, rapid.SampledFrom(ops).Draw(t, "op"))
		}
		s.Users = append(s.Users, l)
	}
	s.Iters = rapid.IntRange(1, 60).Draw(t, "iters")
	s.After = rapid.IntRange(0, 4).Draw(t, "after")
	s.CloseAfter = rapid.IntRange(0, s.Iters*nu).Draw(t, "closeAfter")
	s.Cap = rapid.SampledFrom([]int{0, 1, 4}).Draw(t, "cap")
	s.KeepQueueOpen = s.Kind == kPool && rapid.IntRange(0, 2).Draw(t, "keepQueueOpen") == 0
	s.QueueFirst = s.Kind == kPool && rapid.IntRange(0, 2).Draw(t, "queueFirst") == 0
	if s.Kind == kPool {
		s.Batch = rapid.SampledFrom([]int{0, 3, 5}).Draw(t, "batch")
	}
	s.Directed = -1
	if directedOnly || rapid.Bool().Draw(t, "directed") {
		cands := []int{}
		for _, u := range s.Users {
			cands = append(cands, u...)
		}
		s.Directed = rapid.SampledFrom(cands).Draw(t, "directedOp")
		if (s.Kind == kQueue || s.Kind == kPool) && rapid.IntRange(0, 3).Draw(t, "internal") == 0 {
			s.Directed = -2
		}
	}
	if s.Kind == kCor {
		// the target serves CloseAfter requests, then completes while callers keep asking
		s.CloseAfter = rapid.IntRange(0, 12).Draw(t, "served")
	}
	s.Plan = vlib.DrawPlan(t, allPoints[s.Kind], 5)
	return s
}

func report(t vlib.TB, s scenario, res result, skip func()) {
	if res.inconclusive != "" && res.failKey == "" {
		vlib.S().Note("inconclusive (%s): %v", res.inconclusive, s)
		vlib.S().Class("inconclusive")
		return
	}
	if res.failKey == "" {
		return
	}
	vlib.WriteReplay("C15/scenario", s)
	if vlib.Fail(t, res.failKey, "%v: %s", s, res.failMsg) {
		skip()
	}
}

// TestDirected enumerates every (kind, op) window named by the property and enters it
// on purpose: the user is parked right after its closed/done check until the close has
// closed the channels.
func TestDirected(t *testing.T) {
	if vlib.Replaying() {
		t.Skip()
	}
	reps := vlib.Pick(5, 150)
	for kind := 0; kind < numKinds; kind++ {
		dirs := append([]int{}, opsOf(kind)...)
		if kind == kQueue || kind == kPool {
			dirs = append(dirs, -2)
		}
		for _, op := range dirs {
			for rep := 0; rep < reps; rep++ {
				users := [][]int{}
				nu := 1 + rep%3
				for u := 0; u < nu; u++ {
					if op >= 0 {
						users = append(users, []int{op})
					} else {
						users = append(users, []int{opsOf(kind)[u%len(opsOf(kind))]})
					}
				}
				s := scenario{Kind: kind, Users: users, Iters: 5 + rep, After: 2, CloseAfter: rep % 4, Directed: op, Cap: []int{0, 1, 4}[rep%3], KeepQueueOpen: kind == kPool && rep%2 == 1, QueueFirst: kind == kPool && rep%3 == 2}
				vlib.S().Eval("directed")
				res := runScenario(s)
				if res.windowEntered {
					vlib.S().NonTrivial("directed", fmt.Sprintf("%s op=%d users=%d cap=%d rep=%d", kindNames[kind], op, nu, s.Cap, rep))
					vlib.S().Class("directed/window-entered")
				} else {
					vlib.S().Class("directed/window-missed")
				}
				report(t, s, res, func() {})
			}
		}
	}
	vlib.S().Note("directed: every (kind, op) window x %d repetitions", reps)
}

// TestStress reaches the windows that have no hook: many users hammer one operation (plus a
// few producers keeping the object busy/overflowed) while the close lands at a drawn moment;
// no parking, just density and repetition.
func TestStress(t *testing.T) {
	if vlib.Replaying() {
		t.Skip()
	}
	reps := vlib.Pick(40, 1000)
	for kind := 0; kind < numKinds; kind++ {
		for _, op := range opsOf(kind) {
			for rep := 0; rep < reps; rep++ {
				users := [][]int{}
				for u := 0; u < 6; u++ {
					users = append(users, []int{op})
				}
				users = append(users, []int{opPost}, []int{opPost})
				s := scenario{Kind: kind, Users: users, Iters: 300, After: 1, CloseAfter: 20 + (rep*37)%400, Directed: -1, Cap: []int{1, 0, 4}[rep%3], Stress: true}
				if kind == kCor {
					s.CloseAfter = rep % 12
				}
				vlib.S().Eval("stress")
				res := runScenario(s)
				if res.windowEntered {
					vlib.S().NonTrivial("stress", fmt.Sprintf("%s op=%s cap=%d closeAfter=%d", kindNames[kind], opNames[op], s.Cap, s.CloseAfter))
				}
				report(t, s, res, func() {})
			}
		}
	}
}

func TestReplayJSON(t *testing.T) {
	raw := vlib.ReplayCase("C15/scenario")
	if raw == nil {
		t.Skip("no replay case")
	}
	var s scenario
	if err := json.Unmarshal(raw, &s); err != nil {
		t.Fatal(err)
	}
	for i := 0; i < 100; i++ {
		if res := runScenario(s); res.failKey != "" {
			t.Fatalf("[key=%s] run %d: %s", res.failKey, i, res.failMsg)
		}
	}
}

func TestRandom(t *testing.T) {
	vlib.Check(t, "random", 400, 12000, func(t *rapid.T) {
		s := genScenario(t, false)
		st := vlib.S()
		st.Eval("random")
		res := runScenario(s)
		if res.windowEntered {
			st.NonTrivial("random", s.String())
			st.Class("random/overlap")
		} else {
			st.Class("random/no-overlap")
		}
		st.Class("kind=" + kindNames[s.Kind])
		report(t, s, res, func() { t.Skip("known") })
	})
}

// TestZLast: no callback for work submitted after a close may ever have run.
func TestZLast(t *testing.T) {
	time.Sleep(10 * time.Millisecond)
	if n := atomic.LoadInt64(&lateRan); n > 0 {
		vlib.Fail(t, "C15/ran-after-close", "%d callbacks ran for work submitted after a close had returned", n)
	}
}
