#!/usr/bin/env python3
"""Regenerate /verif/MANIFEST.json from harness/cNN/check.json files."""
import glob, json, os, subprocess
V = os.path.dirname(os.path.dirname(os.path.abspath(__file__)))
props = [json.loads(l)["id"] for l in open(os.path.join(V, "properties.jsonl"))]
checks, na = [], []
hooks_commits = []
hf = os.path.join(V, "tools", "hook_commits.txt")
if os.path.exists(hf):
    hooks_commits = [l.split()[0] for l in open(hf) if l.strip()]
claimed = set(open(os.path.join(V, "tools", "claimed.txt")).read().split())
for pid in props:
    p = os.path.join(V, "harness", pid.lower(), "check.json")
    if pid not in claimed or not os.path.exists(p):
        na.append({"property_id": pid, "reason": "check not built yet in this round (planned in DESIGN.md section 2); not claimed until its harness exists and is silent on the unchanged tree"})
        continue
    c = json.load(open(p))
    if c.get("disabled"):
        na.append({"property_id": pid, "reason": c["disabled"]})
        continue
    e = {
        "property_id": pid,
        "quick_cmd": f"./check {pid} quick",
        "thorough_cmd": f"./check {pid} thorough",
        "evidence_file": f"/verif/evidence/{pid}.json",
        "replay_cmd_template": f"./check {pid} --replay {{path}}",
        "engine": "rapid+harness",
        "level_claimed": {
            "category": "exploration",
            "text": c.get("level_text", ""),
            "design_ref": c.get("design_ref", f"DESIGN.md section 2, {pid}"),
        },
        "level_note": c.get("level_note", ""),
        "technique": c.get("technique", "property-based testing (rapid) against a reference model"),
    }
    checks.append(e)
m = {
    "version": 1,
    "setup_cmd": "./check --build",
    "hooks": {
        "guard": "verif",
        "enable": "go build tag: the harness runs `go test -tags verif` on its own module, which replaces github.com/TeaEntityLab/fpGo/v2 with /repo, so /repo is recompiled from its working tree with the tag on",
        "baseline_off_cmd": "cd /repo && GOFLAGS=-mod=mod GOPROXY=off GOSUMDB=off go test -vet=off -count=1 -timeout 25m ./... ; git -C /repo checkout -- go.sum",
        "source_commits": hooks_commits,
        "add_only": True,
    },
    "engines": [
        {"name": "rapid+harness", "path": "/verif/harness", "serves_properties": [c["property_id"] for c in checks],
         "kind_free_text": "pgregory.net/rapid v1.3.0 property-based tests (generators, state machines, shrinking) with reference-model / law / differential oracles, bounded-exhaustive enumeration for small spaces, porcupine as a linearizability oracle, Go native fuzzing (rapid.MakeFuzz) in the thorough tier; driven by /verif/check"}
    ],
    "checks": checks,
    "not_applicable": na,
    "notes": "Every check: ./check <id> quick|thorough; exit 0 held, 1 + VIOLATION line, 2 inconclusive (build failure/time budget). VERIF_SEED selects the rapid seed (0 remapped to 1). Known findings: /verif/known_findings.json (read-only at run time).",
}
json.dump(m, open(os.path.join(V, "MANIFEST.json"), "w"), indent=1)
print(f"claimed {len(checks)}, not_applicable {len(na)}")
