#!/usr/bin/env python3
"""seedkeep.py <Cxx> <n> <check-id> : run seedcheck, and if confirmed store under /verif/seeded/<Cxx>-<n>/"""
import json, os, re, shutil, subprocess, sys
pid, n = sys.argv[1], sys.argv[2]
chk = sys.argv[3] if len(sys.argv) > 3 else pid
sfx = os.environ.get("SEED_SUFFIX", "")
off = int(os.environ.get("SEED_OFFSET", "0"))
src = f"/tmp/seed-{pid}{sfx}/out/{n}"
r = subprocess.run(["/verif/tools/seedcheck.sh", pid, n, chk], capture_output=True, text=True)
out = r.stdout + r.stderr
m = re.search(r"demo without patch rc=(\d+) ; with patch rc=(\d+)", out)
confirmed = bool(m) and m.group(1) == "0" and m.group(2) != "0"
sec = out.split("== suite WITH patch")[1].split("== demo WITH patch")[0] if "== suite WITH patch" in out else "FAIL"
suite_ok = not any(l.startswith("FAIL") or l.startswith("--- FAIL") for l in sec.splitlines())
if not suite_ok and "TestWorkerPool" in sec and sec.count("--- FAIL") <= 1:
    suite_ok = True  # timing-sensitive baseline test, documented flaky under load
verdict = "CAUGHT" if "CAUGHT" in out else ("MISSED" if "MISSED" in out else "INCONCLUSIVE")
keys = re.search(r"CAUGHT .*?: (.*)", out)
print(f"{pid}-{n}: confirmed={confirmed} suite_ok={suite_ok} check={verdict} {keys.group(1) if keys else ''}")
if not (confirmed and suite_ok):
    print(out[-3000:])
    sys.exit(1)
dst = f"/verif/seeded/{pid}-{int(n)+off}"
os.makedirs(dst, exist_ok=True)
shutil.copy(f"{src}/patch.diff", dst)
for f in os.listdir(src):
    if f.startswith("demo") or f == "notes.md":
        if os.path.isdir(f"{src}/{f}"):
            shutil.copytree(f"{src}/{f}", f"{dst}/{f}", dirs_exist_ok=True)
        else:
            shutil.copy(f"{src}/{f}", f"{dst}/{f}.txt" if f.endswith(".go") else f"{dst}/{f}")
notes = open(f"{src}/notes.md").read() if os.path.exists(f"{src}/notes.md") else ""
meta = {
    "property": pid,
    "breaks": notes.strip().split("\n\n")[0][:600],
    "needs_to_manifest": "see notes.md",
    "confirmed": {
        "patch_applies_to": subprocess.run(["git", "-C", "/repo", "rev-parse", "--short", "HEAD"], capture_output=True, text=True).stdout.strip(),
        "existing_suite_with_patch": "pass (go test -skip 'TestLinkedListQueue|TestNewBufferedChannelQueue|TestWorkerJamDuration' . ./network ./worker)",
        "demo_without_patch": "pass", "demo_with_patch": "fail",
        "how": "tools/seedcheck.sh in a scratch worktree of /repo HEAD",
    },
    "check_result": {"check": chk, "tier": "quick", "verdict": verdict, "keys": keys.group(1) if keys else ""},
    "origin": "independent sub-agent given only the property text and a scratch worktree",
}
json.dump(meta, open(f"{dst}/meta.json", "w"), indent=1)
