#!/usr/bin/env python3
"""Rewrite the generated tables of DESIGN.md (between <!-- BEGIN:x --> / <!-- END:x --> markers)."""
import glob, json, os, re, subprocess
V = "/verif"
def seeded_table():
    rows = ["| seeded change | property | what it breaks / needs | caught by (quick) | failing key(s) |", "|---|---|---|---|---|"]
    for m in sorted(glob.glob(f"{V}/seeded/*/meta.json"), key=lambda p: (p.split('/')[-2].split('-')[0], int(p.split('/')[-2].split('-')[1]))):
        j = json.load(open(m))
        name = m.split('/')[-2]
        b = re.sub(r"[#*`|]", "", j.get("breaks", "")).replace("\n", " ").strip()
        b = re.sub(r"^Change \d+\s*[-:—.]*\s*", "", b)[:170]
        cr = j.get("check_result", {})
        rows.append(f"| seeded/{name} | {j['property']} | {b} | {cr.get('check','')} {cr.get('verdict','')} | {cr.get('keys','')} |")
    return "\n".join(rows)
def mutant_table():
    by = {}
    for p in sorted(glob.glob(f"{V}/mutants/*.patch")):
        n = os.path.basename(p)[:-6]
        by.setdefault(n.split('-')[0].upper(), []).append(n.split('-', 1)[1])
    rows = ["| check | own mutants (all caught by the quick tier; `tools/mutant.sh mutants/<f>.patch <Cxx>`) |", "|---|---|"]
    for k in sorted(by):
        rows.append(f"| {k} | {', '.join(by[k])} |")
    return "\n".join(rows)
def fixed_table():
    k = json.load(open(f"{V}/known_findings.json"))
    rows = ["| property | fix commit in /repo | what failed |", "|---|---|---|"]
    for f in k["fixed"]:
        m = re.match(r"fixed: property=(C\d+) (\w+) (.*)", f)
        rows.append(f"| {m.group(1)} | {m.group(2)} | {m.group(3).replace('|','/')} |")
    return "\n".join(rows)
s = open(f"{V}/DESIGN.md").read()
for name, fn in (("seeded", seeded_table), ("mutants", mutant_table), ("fixed", fixed_table)):
    s = re.sub(rf"(<!-- BEGIN:{name} -->\n).*?(<!-- END:{name} -->)", lambda m: m.group(1) + fn() + "\n" + m.group(2), s, flags=re.S)
open(f"{V}/DESIGN.md", "w").write(s)
