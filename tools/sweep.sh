#!/bin/bash
# usage: sweep.sh <seeds...>   -- re-run every seeded change against its property's quick check at the given VERIF_SEEDs
cd /verif
for seed in "$@"; do
  for d in seeded/*/; do
    n=$(basename $d); id=${n%%-*}
    echo "$seed $n"
  done
done | xargs -P 5 -L 1 bash -c 'r=$(VERIF_SEED=$0 /verif/tools/mutant.sh /verif/seeded/$1/patch.diff ${1%%-*} 2>&1 | tail -1); echo "seed=$0 $1: $r"' | tee /verif/.work/sweep.log | grep -v CAUGHT
echo "sweep done: $(grep -c CAUGHT /verif/.work/sweep.log) caught of $(wc -l < /verif/.work/sweep.log)"
