#!/usr/bin/env python3
"""print the prompt for an independent seeding agent: seed_prompt.py Cxx"""
import json, sys
pid = sys.argv[1]
rnd = int(sys.argv[2]) if len(sys.argv) > 2 else 1
suffix = "" if rnd == 1 else f"-r{rnd}"
p = [json.loads(l) for l in open('/verif/properties.jsonl') if json.loads(l)['id'] == pid][0]
wt = f"/tmp/seed-{pid}{suffix}"
print(f"""You are given a git worktree of the Go library TeaEntityLab/fpGo (a generics functional-programming utility library: Maybe, MonadIO, streams/sets, queues, coroutines, actors, a worker pool and a Retrofit-like HTTP helper) at {wt}. You may read and edit files ONLY under {wt} (do not touch /repo, and do not read or list anything under /verif — it is off-limits for this task).

Environment: sealed sandbox, no network. In every shell call first run: export GOFLAGS=-mod=mod GOPROXY=off GOSUMDB=off GOTOOLCHAIN=local   (Go 1.23). If `go` rewrites go.sum, run `git checkout -- go.sum`. Never use `git stash` (the stash is shared with other worktrees of this repository that other people are using right now): switch between patched and unpatched with `git apply` / `git apply -R` / `git checkout -- <file>`. Files named verifhook_*.go and the one-line calls verifPoint("...", x) in the sources are inert test instrumentation (no-ops): leave them alone and do not rely on them.

A semantic property that this library is supposed to satisfy:

TITLE: {p['title']}
STATEMENT: {p['statement']}
QUANTIFIED OVER: {p['quantifier']['text']}
CODE ANCHORS: files {', '.join(p['anchors']['files'])}

Your task: produce TWO independent changes (different mechanisms, ideally in different functions) to the library's non-test source, each of which BREAKS this property while the library still compiles and its existing test suite still passes (`cd {wt} && go test -vet=off -count=1 ./...`; the tests TestLinkedListQueue, TestNewBufferedChannelQueue and TestWorkerJamDuration are known flaky/failing and do not count, and TestWorkerPool is timing-sensitive when the machine is busy — re-run it if it fails).

Ask yourself what a plausible refactoring, optimisation or 'simplification' by a maintainer could get wrong. Prefer changes that need something specific to manifest — a particular interleaving, a fault or panic at a particular point, a multi-step sequence of operations, an unusual input or boundary value, or two cooperating sites that each look fine alone — NOT changes that ordinary use or the first call would expose at once. Keep each change small (a few lines) and realistic; do not add dead code, sleeps, or magic-constant triggers like `if x == 31337`.

For each change n in {{1,2}} deliver in {wt}/out/<n>/ :
  - patch.diff : `git diff` against HEAD (library source files only, applies with `git apply` at the repo root);
  - demo_test.go (or demo/main.go) : a demonstration that FAILS with the change applied and PASSES without it (a Go test placed in the package of the changed code, or a small program); say in notes.md exactly where to copy it and how to run it;
  - notes.md : which clause of the property is broken, what is needed for it to manifest (input / sequence / interleaving), how likely the demo is to fail per run if it is schedule-dependent.
Verify both directions yourself (with patch: existing suite passes and demo fails; without patch: demo passes). When done, leave the worktree's tracked files clean (`git checkout -- .`, remove demo files you copied into source dirs) so that only out/ remains. Your final message: a short summary of the two changes and the verification you ran.""")
import glob, os
taken = []
for m in sorted(glob.glob(f"/verif/seeded/{pid}-*/meta.json")):
    b = json.load(open(m)).get("breaks", "").strip().replace("\n", " ")
    taken.append("- " + b[:400])
if rnd > 1 and taken:
    print("\nOther people have ALREADY produced the following changes for this property; do NOT repeat these ideas or close variants of them — look for different mechanisms, different functions, different clauses of the statement (re-read the statement: every clause and every item of the quantifier is fair game), and make them harder to notice than these:\n" + "\n".join(taken))
