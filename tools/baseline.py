#!/usr/bin/env python3
"""Run fpGo's pinned baseline (guard OFF, no verif tag) and compare with
/root/.vp/BASELINE.json stable_pass. Usage: baseline.py [repo_dir] [runs]
Exit 0 when every stable test passed in every run."""
import json, os, subprocess, sys
repo = sys.argv[1] if len(sys.argv) > 1 else "/repo"
runs = int(sys.argv[2]) if len(sys.argv) > 2 else 1
base = json.load(open("/root/.vp/BASELINE.json"))
stable = set(base["stable_pass"])
env = dict(os.environ, GOPROXY="off", GOSUMDB="off", GOTOOLCHAIN="local", GOFLAGS="-mod=mod")
bad = False
for r in range(runs):
    p = subprocess.run(["go", "test", "-json", "-vet=off", "-count=1", "-timeout", "25m", "./..."],
                       cwd=repo, env=env, stdout=subprocess.PIPE, stderr=subprocess.STDOUT, text=True)
    passed, failed = set(), set()
    for line in p.stdout.splitlines():
        try:
            e = json.loads(line)
        except Exception:
            continue
        if e.get("Test") and "/" not in e["Test"]:
            k = f'{e["Package"]}::{e["Test"]}'
            if e["Action"] == "pass":
                passed.add(k)
            elif e["Action"] == "fail":
                failed.add(k)
    missing = sorted(stable - passed)
    print(f"run {r}: passed={len(passed)} failed={sorted(failed)} stable_missing={missing}")
    if missing:
        bad = True
subprocess.run(["git", "checkout", "--", "go.sum"], cwd=repo)
sys.exit(1 if bad else 0)
