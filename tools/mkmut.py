#!/usr/bin/env python3
"""mkmut.py <name> <file> <<< JSON {"old":..., "new":...}  -- create /verif/mutants/<name>.patch against /repo HEAD
usage from python: import mkmut; mkmut.mk(name, file, old, new)"""
import subprocess, os, sys, tempfile, shutil
def mk(name, file, old, new, count=1):
    wt = tempfile.mkdtemp(prefix="mk-", dir="/tmp")
    os.rmdir(wt)
    subprocess.run(["git", "-C", "/repo", "worktree", "add", "-q", "--detach", wt, "HEAD"], check=True)
    try:
        p = os.path.join(wt, file)
        s = open(p).read()
        assert old in s, f"{name}: anchor not found"
        open(p, "w").write(s.replace(old, new, count))
        d = subprocess.run(["git", "-C", wt, "diff"], capture_output=True, text=True).stdout
        r = subprocess.run(["go", "build", "./..."], cwd=wt, env=dict(os.environ, GOPROXY="off", GOSUMDB="off", GOTOOLCHAIN="local", GOFLAGS="-mod=mod"), capture_output=True, text=True)
        if r.returncode != 0:
            print(f"{name}: DOES NOT COMPILE\n{r.stderr[:500]}")
            return False
        open(f"/verif/mutants/{name}.patch", "w").write(d)
        print(f"{name}: ok")
        return True
    finally:
        subprocess.run(["git", "-C", "/repo", "worktree", "remove", "--force", wt])
