#!/bin/bash
# usage: mutant.sh <patch-file> <Cxx> [tier]   -> applies patch to a scratch worktree of /repo HEAD,
# runs the check against it (VERIF_REPO), removes the worktree. Prints CAUGHT / MISSED / INCONCLUSIVE.
patch=$(realpath "$1"); id=$2; tier=${3:-quick}
wt=/tmp/mut-$$-$RANDOM
git -C /repo worktree add -q --detach "$wt" HEAD || exit 3
if ! git -C "$wt" apply "$patch"; then echo "PATCH-FAILED $patch"; git -C /repo worktree remove --force "$wt"; exit 3; fi
cd /verif
out=$(VERIF_EVIDENCE_DIR=$wt/.evidence VERIF_REPLAYS_DIR=$wt/.replays VERIF_REPO=$wt ./check $id $tier 2>&1); rc=$?
git -C /repo worktree remove --force "$wt"; git -C /repo worktree prune
rm -f /verif/.build/*$(echo $wt | tr -c 'A-Za-z0-9' '_' | sed 's/_$//')*
case $rc in
 1) echo "CAUGHT $(basename $patch) by $id $tier: $(echo "$out" | grep -o 'key=[^] ]*' | sort | uniq -c | sort -rn | head -3 | awk '{print $2}' | paste -sd,)";;
 0) echo "MISSED $(basename $patch) by $id $tier";;
 *) echo "INCONCLUSIVE($rc) $(basename $patch) by $id $tier"; echo "$out" | tail -5;;
esac
exit $rc
