#!/bin/bash
# usage: stress.sh <rounds> [burners]  -- run every quick check <rounds> times with different seeds while CPU burners run
rounds=${1:-2}; burners=${2:-16}
pids=()
for i in $(seq 1 $burners); do ( while :; do :; done ) & pids+=($!); done
trap 'kill ${pids[@]} 2>/dev/null' EXIT
cd /verif
for r in $(seq 1 $rounds); do
  seed=$((RANDOM * 7 + r))
  for c in C01 C02 C03 C04 C05 C06 C07 C08 C09 C10 C11 C12 C13 C14 C15 C16 C17 C18 C19 C20; do
    out=$(VERIF_SEED=$seed VERIF_EVIDENCE_DIR=/verif/.work/ev-stress VERIF_REPLAYS_DIR=/verif/.work/rp-stress ./check $c quick 2>&1); rc=$?
    echo "round $r seed $seed $c rc=$rc $(echo "$out" | tail -1 | cut -c1-160)"
    if [ $rc -ne 0 ]; then echo "$out" | grep -v 'rapid\] draw' | tail -40 > /verif/.work/stress-fail-$c-$seed.log; fi
  done
done
