#!/bin/bash
# usage: seedcheck.sh <Cxx> <n> [check-id]  -- confirm a seeded change from /tmp/seed-Cxx/out/n and run the check on it
id=$1; n=$2; chk=${3:-$id}
src=/tmp/seed-$id${SEED_SUFFIX}/out/$n
[ -f $src/patch.diff ] || { echo "no $src/patch.diff"; exit 3; }
export GOFLAGS=-mod=mod GOPROXY=off GOSUMDB=off GOTOOLCHAIN=local
wt=/tmp/sc-$$-$RANDOM
git -C /repo worktree add -q --detach $wt HEAD || exit 3
cleanup() { git -C /repo worktree remove --force $wt; git -C /repo worktree prune; }
demo=$(ls $src/demo*_test.go 2>/dev/null | head -1)
pkgline=$(grep -m1 '^package ' "$demo" | awk '{print $2}')
case "$pkgline" in
  fpgo|fpgo_test) dir=.;;
  worker|worker_test) dir=worker;;
  network|network_test) dir=network;;
  *) dir=.;;
esac
cp "$demo" $wt/$dir/zz_seed_demo_test.go
tests=$(grep -o '^func Test[A-Za-z0-9_]*' "$demo" | sed 's/func //' | paste -sd'|')
cd $wt; export TMPDIR=$wt/.tmp; mkdir -p $TMPDIR
echo "== demo WITHOUT patch (must pass)"
go test -vet=off -count=1 -run "^($tests)\$" ./$dir 2>&1 | tail -3
r0=${PIPESTATUS[0]}
git apply $src/patch.diff || { echo "PATCH DOES NOT APPLY"; cleanup; exit 3; }
echo "== suite WITH patch (must pass, flaky skipped)"
go test -vet=off -count=1 -skip "TestLinkedListQueue|TestNewBufferedChannelQueue|TestWorkerJamDuration|Demo|Seed|$tests" . ./network ./worker 2>&1 | tail -4
echo "== demo WITH patch (must fail)"
go test -vet=off -count=1 -run "^($tests)\$" ./$dir 2>&1 | tail -6
r1=${PIPESTATUS[0]}
cleanup
echo "demo without patch rc=$r0 ; with patch rc=$r1"
unset TMPDIR
echo "== my check"
cd /verif
/verif/tools/mutant.sh $src/patch.diff $chk
